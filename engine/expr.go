package main

import (
	"fmt"
	"go/ast"
	"go/constant"
	"go/token"
	"go/types"
	"math/big"
	"strings"
)

func (x *Exec) strLit(s string) Term {
	x.strSort()
	if s == "" {
		return Term{S: "str_empty", Sort: "Str"}
	}
	if t, ok := x.strLits[s]; ok {
		return t
	}
	name := "strlit_" + fmt.Sprintf("%x", s)
	if len(name) > 40 {
		name = fmt.Sprintf("strlit_%s_%d", sha([]byte(s)), len(s))
	}
	t := x.d.constant(name, "Str")
	// distinct literals are distinct strings
	for o, ot := range x.strLits {
		_ = o
		x.d.axiom("strdist:"+name+":"+ot.S, fmt.Sprintf("(distinct %s %s)", name, ot.S))
	}
	x.d.axiom("strne:"+name, fmt.Sprintf("(distinct %s str_empty)", name))
	x.strLits[s] = t
	return t
}

func (x *Exec) constTerm(v constant.Value, t types.Type, n ast.Node) Term {
	switch v.Kind() {
	case constant.Bool:
		if constant.BoolVal(v) {
			return tTrue
		}
		return tFalse
	case constant.Int:
		if b, ok := types.Unalias(t).Underlying().(*types.Basic); ok && t != nil && b.Info()&types.IsFloat != 0 {
			// an integer constant of floating point type
			fs := x.d.Uninterp("Float")
			r := x.d.constant("flit_"+sanitize(v.ExactString()), fs)
			r.Ty = t
			return r
		}
		if i, ok := constant.Int64Val(v); ok {
			r := tInt(i)
			r.Ty = t
			return r
		}
		bi, _ := new(big.Int).SetString(v.ExactString(), 10)
		r := Term{S: bi.String(), Sort: "Int", Ty: t}
		if bi.Sign() < 0 {
			r.S = "(- " + new(big.Int).Neg(bi).String() + ")"
		}
		return r
	case constant.String:
		r := x.strLit(constant.StringVal(v))
		r.Ty = t
		return r
	case constant.Float:
		fs := x.d.Uninterp("Float")
		r := x.d.constant("flit_"+sanitize(v.ExactString()), fs)
		r.Ty = t
		return r
	}
	x.unsupported(n, "constant %s", v)
	return Term{S: "0", Sort: "Int"}
}

func (x *Exec) pkgConst(name string) (Term, bool) {
	// name or pkg_name style lookups for contract expressions: LT, EQ, GT etc.
	look := func(p *types.Package) (Term, bool) {
		if p == nil {
			return Term{}, false
		}
		if o, ok := p.Scope().Lookup(name).(*types.Const); ok {
			return x.constTerm(o.Val(), o.Type(), nil), true
		}
		return Term{}, false
	}
	if t, ok := look(x.pkg.Types); ok {
		return t, true
	}
	for _, imp := range x.pkg.Types.Imports() {
		if t, ok := look(imp); ok {
			return t, true
		}
	}
	return Term{}, false
}

// expr evaluates an expression without state-changing calls.
func (x *Exec) expr(st *State, fr *Frame, e ast.Expr) Term {
	r := x.exprs(st, fr, e)
	if len(r) == 0 {
		x.unsupported(e, "expression yields no value")
		return Term{S: "null", Sort: "Ref"}
	}
	return r[0]
}

func (x *Exec) exprs(st *State, fr *Frame, e ast.Expr) []Term {
	e = ast.Unparen(e)
	if tv, ok := x.info.Types[e]; ok && tv.Value != nil {
		return []Term{x.constTerm(tv.Value, tv.Type, e)}
	}
	one := func(t Term) []Term {
		if t.Ty == nil {
			t.Ty = x.info.TypeOf(e)
		}
		return []Term{t}
	}
	switch e := e.(type) {
	case *ast.Ident:
		switch e.Name {
		case "nil":
			if t := x.info.TypeOf(e); t != nil {
				if b, ok := t.(*types.Basic); !ok || b.Kind() != types.UntypedNil {
					return one(x.zero(t))
				}
			}
			return []Term{{S: "null", Sort: "Ref"}}
		case "true":
			return []Term{tTrue}
		case "false":
			return []Term{tFalse}
		}
		obj := x.info.ObjectOf(e)
		switch o := obj.(type) {
		case *types.Var:
			return one(x.getVar(st, o))
		case *types.Func:
			return one(x.funcValue(o, nil, e))
		case *types.Const:
			return one(x.constTerm(o.Val(), o.Type(), e))
		case *types.Nil:
			return []Term{{S: "null", Sort: "Ref"}}
		}
		x.unsupported(e, "identifier %s (%T)", e.Name, obj)
	case *ast.BasicLit:
		x.unsupported(e, "literal %s without constant value", e.Value)
	case *ast.FuncLit:
		return one(x.closureValue(st, fr, e))
	case *ast.UnaryExpr:
		if e.Op == token.AND {
			return one(x.addrOf(st, fr, e))
		}
		if e.Op == token.ARROW {
			var out Term
			ch := x.expr(st, fr, e.X)
			got := false
			x.chanRecv(st, fr, ch, e, func(s2 *State, v Term, ok Term) {
				// non-forking receive inside an expression: state must be shared
				if !got {
					*st = *s2
					out = v
					got = true
				}
			})
			return one(out)
		}
		v := x.expr(st, fr, e.X)
		return one(x.unop(st, e, v))
	case *ast.BinaryExpr:
		if e.Op == token.LAND || e.Op == token.LOR {
			l := x.expr(st, fr, e.X)
			g := l
			if e.Op == token.LOR {
				g = tNot(l)
			}
			st.guard = append(st.guard, g)
			r := x.expr(st, fr, e.Y)
			st.guard = st.guard[:len(st.guard)-1]
			if e.Op == token.LAND {
				return []Term{tAnd(l, r)}
			}
			return []Term{tOr(l, r)}
		}
		l := x.expr(st, fr, e.X)
		r := x.expr(st, fr, e.Y)
		return one(x.binop(st, e, l, r))
	case *ast.CallExpr:
		var out []Term
		n := 0
		x.callK(st, fr, e, func(s2 *State, res []Term) {
			n++
			if n == 1 {
				*st = *s2
				out = res
			} else {
				x.unsupported(e, "forking call inside an expression")
			}
		})
		if n == 0 {
			st.dead = true
			t := x.info.TypeOf(e)
			if tu, ok := t.(*types.Tuple); ok {
				for i := 0; i < tu.Len(); i++ {
					out = append(out, x.zero(tu.At(i).Type()))
				}
			} else if t != nil {
				out = []Term{x.zero(t)}
			}
		}
		if len(out) == 1 && out[0].Ty == nil {
			out[0].Ty = x.info.TypeOf(e)
		}
		return out
	case *ast.SelectorExpr:
		if sel, ok := x.info.Selections[e]; ok {
			switch sel.Kind() {
			case types.FieldVal:
				b := x.expr(st, fr, e.X)
				return one(x.selectFrom(st, fr, e, b))
			case types.MethodVal:
				b := x.expr(st, fr, e.X)
				return one(x.methodValue(st, b, sel, e))
			case types.MethodExpr:
				x.unsupported(e, "method expression")
			}
		}
		// qualified identifier pkg.Name
		obj := x.info.ObjectOf(e.Sel)
		switch o := obj.(type) {
		case *types.Const:
			return one(x.constTerm(o.Val(), o.Type(), e))
		case *types.Var:
			return one(x.getVar(st, o))
		case *types.Func:
			return one(x.funcValue(o, nil, e))
		}
		x.unsupported(e, "selector %s", e.Sel.Name)
	case *ast.IndexExpr:
		// generic function instantiation used as a value
		if id := calleeIdent(e.X); id != nil {
			if f, ok := x.info.ObjectOf(id).(*types.Func); ok {
				return one(x.funcValue(f, x.instanceOf(id), e))
			}
		}
		b := x.expr(st, fr, e.X)
		i := x.expr(st, fr, e.Index)
		return one(x.index(st, e, b, i))
	case *ast.IndexListExpr:
		if id := calleeIdent(e.X); id != nil {
			if f, ok := x.info.ObjectOf(id).(*types.Func); ok {
				return one(x.funcValue(f, x.instanceOf(id), e))
			}
		}
		x.unsupported(e, "index list expression")
	case *ast.SliceExpr:
		return one(x.slice(st, fr, e))
	case *ast.StarExpr:
		if loc, ok := x.matchUnsafe(st, fr, e); ok {
			return one(x.unsafeLoad(st, loc, e))
		}
		p := x.expr(st, fr, e.X)
		if p.Loc != nil {
			return one(x.unsafeLoad(st, p.Loc, e))
		}
		x.nilCheck(st, p, e)
		t := x.info.TypeOf(e)
		return one(x.derefWhole(st, p, t, e))
	case *ast.CompositeLit:
		return one(x.composite(st, fr, e))
	case *ast.TypeAssertExpr:
		v := x.expr(st, fr, e.X)
		if ce, ok := ast.Unparen(e.X).(*ast.CallExpr); ok {
			if f, _ := x.staticCallee(ce.Fun); f != nil && f.FullName() == "(*sync.Pool).Get" {
				// trusted: the pool holds only values of the asserted type
				to := x.info.TypeOf(e.Type)
				if x.sortOf(to) == "Ref" {
					v.Ty = to
					return one(v)
				}
			}
		}
		tv, okT := x.typeAssert(st, v, x.info.TypeOf(e.Type), e)
		if tu, ok := x.info.TypeOf(e).(*types.Tuple); ok && tu.Len() == 2 {
			return []Term{tv, okT}
		}
		x.oblige(st, "safety", "type-assertion", okT, e, "x.(T) must hold")
		st.assume(okT)
		return one(tv)
	default:
		x.unsupported(e, "expression %T", e)
	}
	t := x.info.TypeOf(e)
	if t == nil {
		return []Term{{S: "null", Sort: "Ref"}}
	}
	return []Term{x.zero(t)}
}

func calleeIdent(e ast.Expr) *ast.Ident {
	switch e := ast.Unparen(e).(type) {
	case *ast.Ident:
		return e
	case *ast.SelectorExpr:
		return e.Sel
	case *ast.IndexExpr:
		return calleeIdent(e.X)
	case *ast.IndexListExpr:
		return calleeIdent(e.X)
	}
	return nil
}

func (x *Exec) instanceOf(id *ast.Ident) *types.TypeList {
	if inst, ok := x.info.Instances[id]; ok {
		return inst.TypeArgs
	}
	return nil
}

func (x *Exec) unop(st *State, e *ast.UnaryExpr, v Term) Term {
	switch e.Op {
	case token.NOT:
		return tNot(v)
	case token.SUB:
		r := tApp("Int", "-", v)
		x.overflowCheck(st, r, e, x.info.TypeOf(e))
		return r
	case token.ADD:
		return v
	}
	x.unsupported(e, "unary operator %s", e.Op)
	return v
}

func (x *Exec) binop(st *State, e *ast.BinaryExpr, l, r Term) Term {
	switch e.Op {
	case token.EQL, token.NEQ:
		if l.Sort != r.Sort {
			// nil against typed operand
			if l.S == "null" && l.Sort == "Ref" {
				l = x.zeroOfSort(r.Sort, nil)
			} else if r.S == "null" && r.Sort == "Ref" {
				r = x.zeroOfSort(l.Sort, nil)
			} else {
				x.unsupported(e, "comparison between sorts %s and %s", l.Sort, r.Sort)
				return tTrue
			}
		}
		x.checkComparable(st, e, l, r)
		if e.Op == token.EQL {
			return tEq(l, r)
		}
		return tNot(tEq(l, r))
	case token.LSS, token.LEQ, token.GTR, token.GEQ:
		ops := map[token.Token]string{token.LSS: "<", token.LEQ: "<=", token.GTR: ">", token.GEQ: ">="}
		if l.Sort != r.Sort {
			x.unsupported(e, "ordering between sorts %s and %s", l.Sort, r.Sort)
			return tTrue
		}
		if l.Sort == "Float" {
			x.d.fun("float_lt", []string{"Float", "Float"}, "Bool")
			switch e.Op {
			case token.LSS:
				return tApp("Bool", "float_lt", l, r)
			case token.GTR:
				return tApp("Bool", "float_lt", r, l)
			}
			x.unsupported(e, "float comparison %s", e.Op)
		}
		return x.less(ops[e.Op], l, r)
	case token.ADD, token.SUB, token.MUL, token.QUO, token.REM:
		return x.arith(st, e.Op, l, r, e, x.info.TypeOf(e))
	}
	x.unsupported(e, "binary operator %s", e.Op)
	return l
}

func (x *Exec) arith(st *State, op token.Token, l, r Term, n ast.Node, t types.Type) Term {
	if l.Sort == "Str" && op == token.ADD {
		return tApp("Str", "str_cat", l, r)
	}
	if l.Sort != "Int" || r.Sort != "Int" {
		if l.Sort == "Float" {
			// floating point is not reasoned about (DESIGN section 7)
			x.d.fun("float_op_"+op.String(), []string{"Float", "Float"}, "Float")
			return tApp("Float", "float_op_"+op.String(), l, r)
		}
		x.unsupported(n, "arithmetic on sorts %s, %s", l.Sort, r.Sort)
		return l
	}
	var res Term
	switch op {
	case token.ADD:
		res = tApp("Int", "+", l, r)
	case token.SUB:
		res = tApp("Int", "-", l, r)
	case token.MUL:
		res = tApp("Int", "*", l, r)
	case token.QUO:
		x.oblige(st, "safety", "div-by-zero", tNot(tEq(r, tInt(0))), n, "division")
		// Go truncates toward zero
		res = mk("Int", "(ite (>= %[1]s 0) (div %[1]s %[2]s) (- (div (- %[1]s) %[2]s)))", l.S, r.S)
	case token.REM:
		x.oblige(st, "safety", "div-by-zero", tNot(tEq(r, tInt(0))), n, "remainder")
		res = mk("Int", "(ite (>= %[1]s 0) (mod %[1]s (abs %[2]s)) (- (mod (- %[1]s) (abs %[2]s))))", l.S, r.S)
	}
	res.Ty = t
	x.overflowCheck(st, res, n, t)
	return res
}

// intRange returns the value range of a machine integer type.
func intRange(t types.Type) (lo, hi string, ok bool) {
	if t == nil {
		return
	}
	b, isB := types.Unalias(t).Underlying().(*types.Basic)
	if !isB || b.Info()&types.IsInteger == 0 {
		return
	}
	switch b.Kind() {
	case types.Int, types.Int64, types.UntypedInt:
		return "(- 9223372036854775808)", "9223372036854775807", true
	case types.Int32, types.UntypedRune:
		return "(- 2147483648)", "2147483647", true
	case types.Int16:
		return "(- 32768)", "32767", true
	case types.Int8:
		return "(- 128)", "127", true
	case types.Uint, types.Uint64, types.Uintptr:
		return "0", "18446744073709551615", true
	case types.Uint32:
		return "0", "4294967295", true
	case types.Uint16:
		return "0", "65535", true
	case types.Uint8:
		return "0", "255", true
	}
	return
}

// overflowCheck: machine integers are modelled as mathematical integers; every
// arithmetic result must therefore be shown to lie in the range of its type
// (obligation safety:overflow), unless the unit opts out (recorded as an assumption).
func (x *Exec) overflowCheck(st *State, v Term, n ast.Node, t types.Type) {
	if x.opts["overflow"] == "off" {
		x.assumed["machine integers treated as mathematical in "+x.unit+" (overflow not checked)"] = true
		return
	}
	lo, hi, ok := intRange(t)
	if !ok {
		return
	}
	x.oblige(st, "safety", "overflow", mk("Bool", "(and (<= %s %s) (<= %s %s))", lo, v.S, v.S, hi), n, "integer arithmetic stays in range")
}

// assumeTypeInv: values of machine integer type lie in the type's range; references read
// from variables are allocated (type/safety invariant of inputs, guidance "is_valid").
func (x *Exec) assumeTypeInv(st *State, v Term) {
	if v.Sort == "Int" && v.Ty != nil {
		if lo, hi, ok := intRange(v.Ty); ok {
			st.assume(mk("Bool", "(and (<= %s %s) (<= %s %s))", lo, v.S, v.S, hi))
		}
	}
}

func (x *Exec) checkComparable(st *State, e ast.Node, l, r Term) {
	// comparing function values or slices panics/does not compile; interface comparison of
	// uncomparable dynamic types is not modelled.
}

// ---------------------------------------------------------------------------
// heap

func (x *Exec) heapMap(st *State, name, elem string) Term {
	if m, ok := st.maps[name]; ok {
		return m
	}
	so := x.d.ArrayOf("Ref", elem)
	m := x.d.constant(sanitize(name)+"@0", so)
	st.maps[name] = m
	return m
}

func fieldMapName(n *types.Named, f *types.Var, fsort string) string {
	return "H_" + qualName(n) + "." + f.Name() + ":" + fsort
}

func (x *Exec) loadField(st *State, ref Term, n *types.Named, f *types.Var) Term {
	fs := x.sortOf(f.Type())
	name := fieldMapName(n, f, fs)
	m := x.heapMap(st, name, fs)
	t := tSelect(m, ref, fs)
	t.Ty = f.Type()
	if fs == "Ref" && x.dry == 0 && !strings.Contains(t.S, "?") {
		// heap well-formedness: references stored in fields are allocated (or nil)
		key := "wf:" + t.S
		if !x.wfSeen[key] {
			x.wfSeen[key] = true
		}
		st.assume(tOr(tEq(t, nullRef), x.isAlloc(st, t)))
	}
	return t
}

func (x *Exec) storeFieldRef(st *State, ref Term, n *types.Named, f *types.Var, v Term) {
	fs := x.sortOf(f.Type())
	name := fieldMapName(n, f, fs)
	m := x.heapMap(st, name, fs)
	if v.Sort != fs {
		x.unsupported(nil, "store of sort %s into field %s of sort %s", v.Sort, f.Name(), fs)
		return
	}
	st.maps[name] = tStore(m, ref, v)
}

func (x *Exec) loadCell(st *State, ref Term, t types.Type) Term {
	so := x.sortOf(t)
	m := x.heapMap(st, "H_cell:"+so, so)
	r := tSelect(m, ref, so)
	r.Ty = t
	return r
}

func (x *Exec) storeCell(st *State, ref Term, v Term) {
	m := x.heapMap(st, "H_cell:"+v.Sort, v.Sort)
	st.maps["H_cell:"+v.Sort] = tStore(m, ref, v)
}

func (x *Exec) alloc(st *State, hint string, t types.Type) Term {
	r := x.d.fresh(hint, "Ref")
	r.Ty = t
	am := x.heapMap(st, "Alloc", "Bool")
	st.assume(tNot(tEq(r, Term{S: "null", Sort: "Ref"})))
	st.assume(tNot(tSelect(am, r, "Bool")))
	st.maps["Alloc"] = tStore(am, r, tTrue)
	return r
}

func (x *Exec) isAlloc(st *State, r Term) Term {
	return tSelect(x.heapMap(st, "Alloc", "Bool"), r, "Bool")
}

func (x *Exec) nilCheck(st *State, p Term, n ast.Node) {
	if si := x.d.sorts[p.Sort]; si != nil && (si.Kind == "struct" || si.Kind == "node") {
		return // owned tree values are never nil
	}
	if p.Sort != "Ref" {
		if si := x.d.sorts[p.Sort]; si != nil && si.Kind == "list" {
			x.oblige(st, "safety", "nil-deref", tNot(tApp("Bool", "(_ is nil_"+p.Sort+")", p)), n, "cell pointer is not nil")
		}
		return
	}
	x.oblige(st, "safety", "nil-deref", tNot(tEq(p, Term{S: "null", Sort: "Ref"})), n, "pointer is not nil")
}

// structInfo finds the named struct type behind t (through one pointer).
func structBehind(t types.Type) (*types.Named, *types.Struct, bool) {
	t = types.Unalias(t)
	ptr := false
	if p, ok := t.(*types.Pointer); ok {
		t = types.Unalias(p.Elem())
		ptr = true
	}
	n, ok := t.(*types.Named)
	if !ok {
		// an anonymous struct held by value (a local `var r struct{...}`): fields are read and
		// updated functionally like those of a named value struct
		if as, isS := t.(*types.Struct); isS && !ptr {
			return nil, as, false
		}
		return nil, nil, ptr
	}
	s, ok := n.Underlying().(*types.Struct)
	if !ok {
		return nil, nil, ptr
	}
	return n, s, ptr
}

// selectFrom reads the field selected by e from base value b, following the
// selection's index path (promoted fields of embedded structs).
func (x *Exec) selectFrom(st *State, fr *Frame, e *ast.SelectorExpr, b Term) Term {
	sel := x.info.Selections[e]
	if sel != nil && e.Sel.Name == "C" {
		// timer.C: the channel of a *time.Timer is identified with the timer itself
		if p, ok := types.Unalias(sel.Recv()).(*types.Pointer); ok {
			if n := namedOf(p.Elem()); n != nil && qualName(n) == "time.Timer" {
				r := b
				r.Ty = sel.Type()
				return r
			}
		}
	}
	cur := b
	curT := sel.Recv()
	if b.Ty != nil {
		curT = b.Ty
	}
	for _, idx := range sel.Index() {
		cur = x.fieldByIndex(st, cur, curT, idx, e)
		curT = cur.Ty
	}
	return cur
}

func (x *Exec) fieldByIndex(st *State, b Term, bt types.Type, idx int, n ast.Node) Term {
	named, s, isPtr := structBehind(bt)
	if s == nil {
		x.unsupported(n, "field selection from %s", bt)
		return b
	}
	f := s.Field(idx)
	if isPtr && x.isValuePtrType(bt) {
		isPtr = false // owned tree node: the pointer is the value
	}
	if isPtr {
		if adt, ok := x.adts[qualName(named)]; ok {
			x.nilCheck(st, b, n)
			var t Term
			si := x.d.sorts[b.Sort]
			switch f.Name() {
			case adt.Head:
				t = tApp(si.Elem, "hd_"+b.Sort, b)
			case adt.Tail:
				t = tApp(b.Sort, "tl_"+b.Sort, b)
			default:
				x.unsupported(n, "adt field %s", f.Name())
				return b
			}
			t.Ty = f.Type()
			return t
		}
		x.nilCheck(st, b, n)
		return x.loadField(st, b, named, f)
	}
	si := x.d.sorts[b.Sort]
	if si == nil || si.Kind != "struct" {
		x.unsupported(n, "field %s of non-struct sort %s", f.Name(), b.Sort)
		return b
	}
	t := tApp(si.FSorts[idx], b.Sort+"_"+sanitize(f.Name()), b)
	t.Ty = f.Type()
	return t
}

// derefWhole reads *p as a value.
func (x *Exec) derefWhole(st *State, p Term, t types.Type, n ast.Node) Term {
	if p.Sort != "Ref" && x.isValuePtrType(t) {
		p.Ty = t
		return p
	}
	named, s, _ := structBehind(t)
	if s != nil && named != nil {
		so := x.sortOf(t)
		si := x.d.sorts[so]
		var args []Term
		for i := 0; i < s.NumFields(); i++ {
			args = append(args, x.loadField(st, p, named, s.Field(i)))
		}
		r := tApp(so, si.Ctor, args...)
		r.Ty = t
		return r
	}
	return x.loadCell(st, p, t)
}

func (x *Exec) storeField(st *State, fr *Frame, l *ast.SelectorExpr, v Term) {
	sel, ok := x.info.Selections[l]
	if !ok {
		// package-level variable
		if o, ok := x.info.ObjectOf(l.Sel).(*types.Var); ok {
			x.setVar(st, o, v)
			return
		}
		x.unsupported(l, "assignment to %s", l.Sel.Name)
		return
	}
	path := sel.Index()
	// walk to the struct holding the final field
	b := x.expr(st, fr, l.X)
	bt := b.Ty
	if bt == nil {
		bt = sel.Recv()
	}
	x.storePath(st, fr, l, l.X, b, bt, path, v)
}

// storePath writes v at the field path below (b: bt). When the base is a struct value held
// in a variable, the variable is updated functionally.
func (x *Exec) storePath(st *State, fr *Frame, n ast.Node, baseExpr ast.Expr, b Term, bt types.Type, path []int, v Term) {
	named, s, isPtr := structBehind(bt)
	if named != nil && qualName(named) == "sync.Pool" {
		x.trust("sync.Pool.New is only used by the pool itself (Get returns a new value or a pooled one)")
		return
	}
	if s == nil {
		x.unsupported(n, "field store into %s", bt)
		return
	}
	f := s.Field(path[0])
	if isPtr && x.isValuePtrType(bt) {
		isPtr = false
	}
	if isPtr {
		if _, ok := x.adts[qualName(named)]; ok {
			x.oblige(st, "model", "adt-immutable", tFalse, n, "store into a cell of an immutable ADT model")
			return
		}
		x.nilCheck(st, b, n)
		if len(path) == 1 {
			v = x.convertTo(st, v, f.Type(), nil)
			x.storeFieldRef(st, b, named, f, v)
			return
		}
		inner := x.loadField(st, b, named, f)
		if _, _, ip := structBehind(f.Type()); ip {
			x.storePath(st, fr, n, nil, inner, f.Type(), path[1:], v)
			return
		}
		nv := x.updateValue(st, fr, n, inner, f.Type(), path[1:], v)
		x.storeFieldRef(st, b, named, f, nv)
		return
	}
	nv := x.updateValue(st, fr, n, b, bt, path, v)
	if baseExpr == nil {
		x.unsupported(n, "store into a temporary struct value")
		return
	}
	x.store(st, fr, baseExpr, nv)
}

// updateValue returns struct value b with the field at path replaced by v.
func (x *Exec) updateValue(st *State, fr *Frame, n ast.Node, b Term, bt types.Type, path []int, v Term) Term {
	_, s, isPtr := structBehind(bt)
	if isPtr && x.isValuePtrType(bt) {
		isPtr = false
	}
	if isPtr || s == nil {
		x.unsupported(n, "nested store through %s", bt)
		return b
	}
	si := x.d.sorts[b.Sort]
	var args []Term
	for i := 0; i < s.NumFields(); i++ {
		cur := tApp(si.FSorts[i], b.Sort+"_"+sanitize(s.Field(i).Name()), b)
		cur.Ty = s.Field(i).Type()
		if i == path[0] {
			if len(path) == 1 {
				cur = x.convertTo(st, v, s.Field(i).Type(), nil)
			} else {
				cur = x.updateValue(st, fr, n, cur, s.Field(i).Type(), path[1:], v)
			}
		}
		args = append(args, cur)
	}
	r := tApp(b.Sort, si.Ctor, args...)
	r.Ty = bt
	return r
}

func (x *Exec) addrOf(st *State, fr *Frame, e *ast.UnaryExpr) Term {
	switch in := ast.Unparen(e.X).(type) {
	case *ast.CompositeLit:
		t := x.info.TypeOf(in)
		named, s, _ := structBehind(t)
		if named != nil {
			if adt, ok := x.adts[qualName(named)]; ok {
				return x.adtLiteral(st, fr, in, named, s, adt)
			}
		}
		v := x.composite(st, fr, in)
		if x.isValuePtrType(x.info.TypeOf(e)) {
			v.Ty = x.info.TypeOf(e)
			return v
		}
		r := x.alloc(st, "new", x.info.TypeOf(e))
		if named != nil && s != nil {
			si := x.d.sorts[v.Sort]
			for i := 0; i < s.NumFields(); i++ {
				fv := tApp(si.FSorts[i], v.Sort+"_"+sanitize(s.Field(i).Name()), v)
				// simplify selector-of-constructor
				fv = x.projectCtor(v, i, fv)
				x.storeFieldRef(st, r, named, s.Field(i), fv)
			}
			x.implBoxHook(st, r, named, true)
			return r
		}
		x.storeCell(st, r, v)
		return r
	case *ast.Ident:
		obj := x.info.ObjectOf(in)
		if obj == nil {
			break
		}
		if c, ok := st.cells[obj]; ok {
			return c
		}
		// turn the variable into a heap cell
		cur := x.getVar(st, obj)
		r := x.alloc(st, "addr_"+obj.Name(), x.info.TypeOf(e))
		x.storeCell(st, r, cur)
		st.cells[obj] = r
		return r
	}
	x.unsupported(e, "address of %T", e.X)
	return Term{S: "null", Sort: "Ref"}
}

// projectCtor simplifies (sel_i (mk a0 a1 ..)) to a_i when v is syntactically a constructor
// application built by composite().
func (x *Exec) projectCtor(v Term, i int, dflt Term) Term {
	si := x.d.sorts[v.Sort]
	if si == nil || !strings.HasPrefix(v.S, "("+si.Ctor+" ") {
		return dflt
	}
	args := splitArgs(v.S[len(si.Ctor)+2 : len(v.S)-1])
	if i < len(args) {
		t := Term{S: args[i], Sort: si.FSorts[i], Ty: dflt.Ty}
		return t
	}
	return dflt
}

func splitArgs(s string) []string {
	var out []string
	depth, start := 0, -1
	inBar := false
	for i, r := range s {
		switch {
		case r == '|':
			inBar = !inBar
			if start < 0 {
				start = i
			}
		case inBar:
		case r == '(':
			if depth == 0 && start < 0 {
				start = i
			}
			depth++
		case r == ')':
			depth--
			if depth == 0 {
				out = append(out, s[start:i+1])
				start = -1
			}
		case r == ' ':
			if depth == 0 && start >= 0 {
				out = append(out, s[start:i])
				start = -1
			}
		default:
			if start < 0 {
				start = i
			}
		}
	}
	if start >= 0 {
		out = append(out, s[start:])
	}
	return out
}

func (x *Exec) adtLiteral(st *State, fr *Frame, lit *ast.CompositeLit, n *types.Named, s *types.Struct, adt adtSpec) Term {
	so := x.sortOf(types.NewPointer(n))
	var h, t Term
	t = Term{S: "nil_" + so, Sort: so}
	for i, el := range lit.Elts {
		name := ""
		var val ast.Expr
		if kv, ok := el.(*ast.KeyValueExpr); ok {
			name = kv.Key.(*ast.Ident).Name
			val = kv.Value
		} else {
			name = s.Field(i).Name()
			val = el
		}
		v := x.expr(st, fr, val)
		switch name {
		case adt.Head:
			h = v
		case adt.Tail:
			t = v
		}
	}
	if !h.ok() {
		for i := 0; i < s.NumFields(); i++ {
			if s.Field(i).Name() == adt.Head {
				h = x.zero(s.Field(i).Type())
			}
		}
	}
	r := tApp(so, "cons_"+so, h, t)
	r.Ty = types.NewPointer(n)
	return r
}

func (x *Exec) composite(st *State, fr *Frame, e *ast.CompositeLit) Term {
	t := x.info.TypeOf(e)
	switch u := types.Unalias(t).Underlying().(type) {
	case *types.Struct:
		so := x.sortOf(t)
		si := x.d.sorts[so]
		args := make([]Term, u.NumFields())
		for i := range args {
			args[i] = x.zero(u.Field(i).Type())
		}
		for i, el := range e.Elts {
			if kv, ok := el.(*ast.KeyValueExpr); ok {
				name := kv.Key.(*ast.Ident).Name
				for j := 0; j < u.NumFields(); j++ {
					if u.Field(j).Name() == name {
						args[j] = x.convertTo(st, x.expr(st, fr, kv.Value), u.Field(j).Type(), kv.Value)
					}
				}
			} else {
				args[i] = x.convertTo(st, x.expr(st, fr, el), u.Field(i).Type(), el)
			}
		}
		r := tApp(so, si.Ctor, args...)
		r.Ty = t
		return r
	case *types.Slice:
		so := x.sortOf(t)
		r := Term{S: "nil_" + so, Sort: so}
		var vals []Term
		for _, el := range e.Elts { // evaluation in source order
			vals = append(vals, x.convertTo(st, x.expr(st, fr, el), u.Elem(), el))
		}
		for i := len(vals) - 1; i >= 0; i-- {
			r = tApp(so, "cons_"+so, vals[i], r)
		}
		r.Ty = t
		return r
	}
	x.unsupported(e, "composite literal of type %s", t)
	return x.zero(t)
}

func (x *Exec) index(st *State, e *ast.IndexExpr, b, i Term) Term {
	si := x.d.sorts[b.Sort]
	if si != nil && si.Kind == "list" {
		inb := tAnd(tApp("Bool", "<=", tInt(0), i), tApp("Bool", "<", i, tApp("Int", "len_"+b.Sort, b)))
		x.oblige(st, "safety", "index", inb, e, "index in range")
		st.assume(inb)
		return tApp(si.Elem, "nth_"+b.Sort, b, i)
	}
	if si != nil && si.Kind == "array" {
		return tSelect(b, i, si.Elem)
	}
	if si != nil && si.Kind == "arrslice" {
		inb := tAnd(tApp("Bool", "<=", tInt(0), i), tApp("Bool", "<", i, tApp("Int", "len_"+b.Sort, b)))
		x.oblige(st, "safety", "index", inb, e, "index in range")
		st.assume(inb)
		return tSelect(tApp("(Array Int "+si.Elem+")", "arr_"+b.Sort, b), i, si.Elem)
	}
	x.unsupported(e, "index into sort %s", b.Sort)
	return b
}

func (x *Exec) storeIndex(st *State, fr *Frame, l *ast.IndexExpr, v Term) {
	b := x.expr(st, fr, l.X)
	i := x.expr(st, fr, l.Index)
	si := x.d.sorts[b.Sort]
	if si != nil && si.Kind == "list" {
		x.sliceStoreCheck(st, fr, l)
		x.oblige(st, "safety", "index", tAnd(tApp("Bool", "<=", tInt(0), i), tApp("Bool", "<", i, tApp("Int", "len_"+b.Sort, b))), l, "index in range")
		nv := tApp(b.Sort, "upd_"+b.Sort, b, i, v)
		nv.Ty = b.Ty
		x.store(st, fr, l.X, nv)
		return
	}
	if si != nil && si.Kind == "array" {
		nv := tStore(b, i, v)
		nv.Ty = b.Ty
		x.store(st, fr, l.X, nv)
		return
	}
	if si != nil && si.Kind == "arrslice" {
		x.sliceStoreCheck(st, fr, l)
		inb := tAnd(tApp("Bool", "<=", tInt(0), i), tApp("Bool", "<", i, tApp("Int", "len_"+b.Sort, b)))
		x.oblige(st, "safety", "index", inb, l, "index in range")
		st.assume(inb)
		arr := tApp("(Array Int "+si.Elem+")", "arr_"+b.Sort, b)
		nv := mk(b.Sort, "(mk_%s %s %s)", b.Sort, tStore(arr, i, v).S, tApp("Int", "len_"+b.Sort, b).S)
		nv.Ty = b.Ty
		x.store(st, fr, l.X, nv)
		return
	}
	x.unsupported(l, "index store into sort %s", b.Sort)
}

func (x *Exec) slice(st *State, fr *Frame, e *ast.SliceExpr) Term {
	b := x.expr(st, fr, e.X)
	si := x.d.sorts[b.Sort]
	if si == nil || si.Kind != "list" {
		x.unsupported(e, "slice expression on sort %s", b.Sort)
		return b
	}
	ln := tApp("Int", "len_"+b.Sort, b)
	lo := tInt(0)
	if e.Low != nil {
		lo = x.expr(st, fr, e.Low)
	}
	r := b
	if e.High != nil {
		hi := x.expr(st, fr, e.High)
		// Go allows high up to cap(b); the mathematical-sequence model has no capacity, so
		// the check demands high <= len (a slice expression that reaches beyond len into the
		// backing array is reported, cf. finding F8).
		bounds := tAnd(tApp("Bool", "<=", tInt(0), lo), tApp("Bool", "<=", lo, hi), tApp("Bool", "<=", hi, ln))
		x.oblige(st, "safety", "slice-bounds", bounds, e, "0 <= low <= high <= len")
		st.assume(bounds)
		if hi.S != ln.S { // x[lo:len(x)] is x[lo:]
			r = tApp(b.Sort, "take_"+b.Sort, hi, r)
		}
	} else {
		x.oblige(st, "safety", "slice-bounds", tAnd(tApp("Bool", "<=", tInt(0), lo), tApp("Bool", "<=", lo, ln)), e, "0 <= low <= len")
	}
	if lo.S != "0" {
		if lo.S == "1" {
			// s[1:] of a non-empty list is its tail
			r2 := tApp(b.Sort, "drop_"+b.Sort, lo, r)
			r2.Ty = b.Ty
			return r2
		}
		r = tApp(b.Sort, "drop_"+b.Sort, lo, r)
	}
	r.Ty = b.Ty
	return r
}
